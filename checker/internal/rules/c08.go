package rules

import (
	"go/ast"
	"go/token"
	"go/types"
	"sort"
	"strings"

	"gbcheck/internal/prog"
)

func init() {
	register(&Property{
		ID:      "C08",
		Clause:  "every mutation of a leaf happens under the tree lock after the cached hashes on its whole path (root included, every inner level, unconditionally) were invalidated; what is added to a leaf node's hash/count on insert is exactly what is subtracted on overwrite and remove (same key factor, each term guarded by the liveness of the item it concerns, count ±1); the persisted tree, leaf items and key hashes are read back with the layout they were written with; listings are produced under the lock after a refresh of the listed node; only the five maintenance functions write node summaries; the leaf key-hash width table loses no hash bits and only InitTree derives from it",
		NotDec:  "equality of two differently built trees, the numeric hash values, item-level set equality, the C-accelerated find",
		Engines: "E1 lockset + E2 guards + E6 codec tables + E7 constant tables + E5 who-may-write",
		Rules: []Rule{
			{"C08.R1", "q", "invalidate-on-mutate", c08r1},
			{"C08.R2", "q", "add/subtract symmetry", c08r2},
			{"C08.R3", "q", "codec agreement", c08r3},
			{"C08.R4", "q", "refresh-under-lock before listing", c08r4},
			{"C08.R5", "q", "who may write node summaries", c08r5},
			{"C08.R6", "q", "key hash reconstruction parameters", c08r6},
			{"C08.R7", "q", "no hash bits lost in a leaf", c08r7},
			{"C08.R8", "q", "leaf entry geometry agrees across set/get/remove/iterate/find", c08r8},
			{"C08.R9", "q", "key hash of a leaf entry reconstructed from node path and stored bytes; entry search compares the stored bytes", c08r9},
			{"C10.R1", "q", "shared: the value hash entering the tree is taken before compression", c10r1},
			{"C15.R9", "q", "shared: path keys invert ParsePathUint64 for all 16 digits", c15r9},
			{"C01.R10", "q", "shared: tree items carry position, version and value hash", c01r10},
			{"C02.R9", "q", "shared: choice of the tree dump at start-up", c02r9},
			{"C10.R8", "q", "shared: value hashes are taken over decompressed bytes", c10r8},
			{"C08.R10", "q", "fresh tree: only leaf-level summaries valid", c08r10},
			{"C04.L7", "q", "shared: tree node summaries read under the tree lock", c04l7},
		},
	})
}

func c08r1(c *Ctx) {
	const R = "C08.R1"
	c.Floor(R, 4)
	// every function that mutates a leaf obtains its NodeInfo from getLeafAndInvalidNodes under the lock
	mutators := map[string]bool{"store.SliceHeader.Set": true, "store.SliceHeader.Remove": true}
	wrappers := map[string]bool{}
	for _, f := range c.P.SortedFuncs() {
		if f.Pkg.Name == "store" && !mutators[f.Key] && len(f.CallsTo("store.SliceHeader.Set", "store.SliceHeader.Remove")) > 0 {
			wrappers[f.Key] = true // setToLeaf, remvoeFromLeaf
		}
	}
	n := 0
	for w := range wrappers {
		wf := c.P.F(w)
		c.Funcs[w] = true
		// the wrapper itself must be called with the lock and after invalidation, by every caller
		for _, call := range c.P.CallersOf(w) {
			f := call.Fn
			c.Funcs[f.Key] = true
			n++
			inv := f.CallsTo("store.HTree.getLeafAndInvalidNodes")
			h, ls := holds(c, f, call.Expr, lkTree)
			okInv := false
			for _, i := range inv {
				c.Paths++
				if f.CFGFor(call.Expr).Dominates(i.Expr, call.Expr) && len(i.Expr.Args) == 2 && len(call.Expr.Args) >= 1 && prog.SameExpr(f.Info(), i.Expr.Args[1], call.Expr.Args[0]) {
					okInv = true
				}
			}
			c.check(h, R, f.Key+": "+short(w)+" under HTree.Mutex", call.Pos(), "lockset "+ls, "a leaf is mutated without the tree lock (lockset "+ls+")")
			c.check(okInv, R, f.Key+": "+short(w)+" after getLeafAndInvalidNodes on the same NodeInfo", call.Pos(), "dominated", "a leaf is mutated through a NodeInfo that did not come from getLeafAndInvalidNodes (e.g. getLeaf): the cached hashes above the leaf stay marked valid and listings keep reporting the old hash/count")
		}
		_ = wf
	}
	if n == 0 {
		c.undec(R, "store.HTree", "no leaf mutation call chain recognised")
	}
	// the invalidation itself: root and every inner level, unconditionally
	f := c.fn(R, "store.HTree.getLeafAndInvalidNodes")
	if f == nil {
		return
	}
	info := f.Info()
	var rootStore, loopStore *ast.AssignStmt
	ast.Inspect(f.Decl.Body, func(x ast.Node) bool {
		as, ok := x.(*ast.AssignStmt)
		if !ok || len(as.Lhs) != 1 || !prog.IsField(info, "store.Node.isHashUpdated")(as.Lhs[0]) {
			return true
		}
		if b, isC := prog.ConstBool(info, as.Rhs[0]); !isC || b {
			return true
		}
		inLoop := false
		for _, a := range f.Enclosing(as) {
			if _, ok := a.(*ast.ForStmt); ok {
				inLoop = true
			}
		}
		if inLoop {
			loopStore = as
		} else {
			rootStore = as
		}
		return true
	})
	uncond := func(as *ast.AssignStmt) (bool, string) {
		for _, a := range f.Enclosing(as) {
			switch x := a.(type) {
			case *ast.IfStmt, *ast.SwitchStmt, *ast.CaseClause:
				return false, c.pos(x)
			}
		}
		return true, ""
	}
	if rootStore == nil {
		c.viol(R, f.Key+": root invalidated", f.Pos(), "the root node is no longer marked invalid on a mutation")
	} else {
		u, where := uncond(rootStore)
		isRoot := false
		if ix, ok := prog.Unparen(rootStore.Lhs[0].(*ast.SelectorExpr).X).(*ast.IndexExpr); ok {
			if ix2, ok := prog.Unparen(ix.X).(*ast.IndexExpr); ok {
				v1, ok1 := prog.ConstInt(info, ix.Index)
				v2, ok2 := prog.ConstInt(info, ix2.Index)
				isRoot = ok1 && ok2 && v1 == 0 && v2 == 0
			}
		}
		c.check(u && isRoot, R, f.Key+": root invalidated unconditionally", c.pos(rootStore), "levels[0][0].isHashUpdated = false", "the root is invalidated only under a condition ("+where+") or not at levels[0][0]")
	}
	if loopStore == nil {
		c.viol(R, f.Key+": inner levels invalidated", f.Pos(), "the nodes between root and leaf are no longer marked invalid on a mutation")
	} else {
		u, where := uncond(loopStore)
		// the loop must not be left early
		early := ""
		var loop *ast.ForStmt
		for _, a := range f.Enclosing(loopStore) {
			if fs, ok := a.(*ast.ForStmt); ok {
				loop = fs
				break
			}
		}
		if loop != nil {
			ast.Inspect(loop.Body, func(y ast.Node) bool {
				switch s := y.(type) {
				case *ast.BranchStmt:
					early = c.pos(s)
				case *ast.ReturnStmt:
					early = c.pos(s)
				}
				return true
			})
		}
		// loop covers level 1 .. len(levels)-2
		okBounds := false
		if loop != nil && loop.Init != nil && loop.Cond != nil {
			if as, ok := loop.Init.(*ast.AssignStmt); ok {
				if v, isC := prog.ConstInt(info, as.Rhs[0]); isC && v == 1 {
					if be, ok := prog.Unparen(loop.Cond).(*ast.BinaryExpr); ok && be.Op == token.LSS {
						if sub, ok := prog.Unparen(be.Y).(*ast.BinaryExpr); ok && sub.Op == token.SUB {
							if k, isC := prog.ConstInt(info, sub.Y); isC && k == 1 && prog.MentionsField(info, sub.X, "store.HTree.levels") {
								okBounds = true
							}
						}
					}
				}
			}
		}
		c.check(u && early == "" && okBounds, R, f.Key+": every inner level invalidated unconditionally", c.pos(loopStore), "for level := 1; level < len(levels)-1; level++ { …isHashUpdated = false }",
			"the invalidation of the nodes between root and leaf is conditional ("+where+"), leaves the loop early ("+early+") or does not cover levels 1..len-2: an inner node keeps isHashUpdated and updateNodes trusts its stale hash/count")
	}
}

// termInfo describes one `node.hash ±= V * F` or `node.count ±= 1` update.
type leafUpd struct {
	field string // hash / count
	op    token.Token
	stmt  *ast.AssignStmt
}

func c08r2(c *Ctx) {
	const R = "C08.R2"
	fs := c.fns(R, "store.HTree.setToLeaf", "store.HTree.remvoeFromLeaf")
	if fs == nil {
		return
	}
	// key factor in both functions
	factor := func(f *prog.Func) (string, *ast.AssignStmt) {
		info := f.Info()
		var desc string
		var st *ast.AssignStmt
		ast.Inspect(f.Decl.Body, func(x ast.Node) bool {
			as, ok := x.(*ast.AssignStmt)
			if !ok || len(as.Lhs) != 1 || !prog.IsField(info, "store.Node.hash")(as.Lhs[0]) {
				return true
			}
			st = as
			mul, ok := prog.Unparen(as.Rhs[0]).(*ast.BinaryExpr)
			if !ok || mul.Op != token.MUL {
				desc = "not a product"
				return true
			}
			for _, side := range []ast.Expr{mul.X, mul.Y} {
				side = prog.Unparen(side)
				if call, ok := side.(*ast.CallExpr); ok && len(call.Args) == 1 {
					if tv, ok := info.Types[call.Fun]; ok && tv.IsType() {
						if sh, ok := prog.Unparen(call.Args[0]).(*ast.BinaryExpr); ok && sh.Op == token.SHR && prog.IsField(info, "store.KeyInfo.KeyHash")(prog.Unparen(sh.X)) {
							k, _ := prog.ConstInt(info, sh.Y)
							desc = types.ExprString(call.Fun) + "(KeyHash>>" + itoa(int(k)) + ")"
						}
					}
				}
			}
			return true
		})
		return desc, st
	}
	fa, sa := factor(fs[0])
	fb, sb := factor(fs[1])
	if sa == nil || sb == nil {
		c.viol(R, "leaf hash update present in setToLeaf and remvoeFromLeaf", fs[0].Pos(), "one of the leaf mutators no longer updates node.hash")
		return
	}
	c.check(fa == fb && strings.HasPrefix(fa, "uint16(KeyHash>>"), R, "leaf hash: same key factor added and subtracted", c.pos(sb), fa,
		"insert multiplies the value hash by "+fa+" but remove by "+fb+": removing a key does not subtract what inserting it added, so the leaf hash depends on history")
	c.check(sa.Tok == token.ADD_ASSIGN && sb.Tok == token.SUB_ASSIGN, R, "leaf hash: insert adds, remove subtracts", c.pos(sa), "+= / -=", "the signs of the incremental hash updates changed")
	// guards
	verGT0 := func(f *prog.Func, n ast.Node, root func(ast.Expr) bool) bool {
		info := f.Info()
		for _, a := range f.GuardsAt(n) {
			if prog.AtomCmp(a, token.GTR, func(e ast.Expr) bool {
				k, _ := prog.FieldOf(info, e)
				return strings.HasSuffix(k, ".Ver") && root(e)
			}, prog.IsIntConst(info, 0)) {
				return true
			}
		}
		return false
	}
	boolFact := func(f *prog.Func, n ast.Node, obj types.Object) bool {
		return prog.HasBoolFact(f.GuardsAt(n), prog.IsObj(f.Info(), obj), true)
	}
	// setToLeaf: terms on the local vhash accumulator and count updates
	{
		f := fs[0]
		info := f.Info()
		sets := f.CallsTo("store.SliceHeader.Set")
		if len(sets) == 0 {
			c.undec(R, f.Key, "SliceHeader.Set call not found")
		} else {
			oldm, exist := f.ResultObj(sets[0].Expr, 0), f.ResultObj(sets[0].Expr, 1)
			isOld := func(e ast.Expr) bool { return prog.RootObj(info, e) == oldm }
			isNew := func(e ast.Expr) bool { return prog.RootObj(info, e) != oldm }
			n := 0
			ast.Inspect(f.Decl.Body, func(x ast.Node) bool {
				as, ok := x.(*ast.AssignStmt)
				if !ok || len(as.Lhs) != 1 {
					return true
				}
				isCount := prog.IsField(info, "store.Node.count")(as.Lhs[0])
				usesOld := prog.Mentions(info, as.Rhs[0], oldm)
				usesVhash := prog.MentionsField(info, as.Rhs[0], "store.HTreeItem.Vhash") || prog.MentionsField(info, as.Rhs[0], "store.HintItemMeta.Vhash")
				switch {
				case as.Tok == token.ADD_ASSIGN && (isCount || (usesVhash && !usesOld)):
					n++
					c.check(verGT0(f, as, isNew), R, f.Key+": insert term ("+what(isCount)+") guarded by new item Ver > 0", c.pos(as), "guarded", "the insert contribution is applied for tombstones too (or unconditionally): deleted keys are counted/hashed as live")
				case as.Tok == token.SUB_ASSIGN && (isCount || usesOld):
					n++
					c.check(verGT0(f, as, isOld) && boolFact(f, as, exist), R, f.Key+": overwrite term ("+what(isCount)+") guarded by exist ∧ old Ver > 0", c.pos(as), "guarded", "the contribution of the overwritten item is subtracted without checking that it existed and was live: counts/hashes drift (a tombstone or nothing is subtracted)")
				}
				if isCount {
					v, isC := prog.ConstInt(info, as.Rhs[0])
					c.check(isC && v == 1, R, f.Key+": count moves by 1", c.pos(as), "±1", "node.count is changed by something other than 1")
				}
				return true
			})
			if n < 4 {
				c.undec(R, f.Key, "fewer than 4 incremental terms recognised in setToLeaf")
			}
		}
	}
	{
		f := fs[1]
		info := f.Info()
		rms := f.CallsTo("store.SliceHeader.Remove")
		if len(rms) == 0 {
			c.undec(R, f.Key, "SliceHeader.Remove call not found")
		} else {
			oldm, removed := f.ResultObj(rms[0].Expr, 0), f.ResultObj(rms[0].Expr, 1)
			isOld := func(e ast.Expr) bool { return prog.RootObj(info, e) == oldm }
			n := 0
			ast.Inspect(f.Decl.Body, func(x ast.Node) bool {
				as, ok := x.(*ast.AssignStmt)
				if !ok || len(as.Lhs) != 1 {
					return true
				}
				isCount := prog.IsField(info, "store.Node.count")(as.Lhs[0])
				isHash := prog.IsField(info, "store.Node.hash")(as.Lhs[0])
				if !isCount && !isHash {
					return true
				}
				n++
				c.check(as.Tok == token.SUB_ASSIGN && verGT0(f, as, isOld) && boolFact(f, as, removed), R, f.Key+": remove term ("+what(isCount)+") guarded by removed ∧ old Ver > 0", c.pos(as), "guarded",
					"removing an entry subtracts from the node's "+what(isCount)+" without checking that a live entry was actually removed: removing a tombstone (which was never counted) decrements the count / shifts the hash")
				if isCount {
					v, isC := prog.ConstInt(info, as.Rhs[0])
					c.check(isC && v == 1, R, f.Key+": count moves by 1", c.pos(as), "-1", "node.count is changed by something other than 1")
				}
				if isHash {
					c.check(prog.Mentions(info, as.Rhs[0], oldm), R, f.Key+": subtracts the removed item's value hash", c.pos(as), "oldm.Vhash", "the hash term subtracted on remove is not the removed item's")
				}
				return true
			})
			if n < 2 {
				c.undec(R, f.Key, "fewer than 2 incremental terms recognised in remvoeFromLeaf")
			}
		}
	}
}

func what(isCount bool) string {
	if isCount {
		return "count"
	}
	return "hash"
}

func c08r3(c *Ctx) {
	const R = "C08.R3"
	if fs := c.fns(R, "store.itemToBytes", "store.bytesToItem"); fs != nil {
		sz, _ := constVal(c, "store", "TREE_ITEM_HEAD_SIZE")
		compareCodec(c, R, "tree item", fs[0], fs[1], sz, 7, nil)
	}
	if fs := c.fns(R, "store.khashToBytes", "store.bytesToKhash"); fs != nil {
		compareCodec(c, R, "leaf key hash", fs[0], fs[1], 0, 1, nil)
	}
	if fs := c.fns(R, "store.HTree.dump", "store.HTree.load"); fs != nil {
		compareCodec(c, R, "tree dump", fs[0], fs[1], 0, 2, nil)
		// order: all node summaries first, then all leaves, in both
		for _, f := range fs {
			info := f.Info()
			var loops []*ast.ForStmt
			ast.Inspect(f.Decl.Body, func(x ast.Node) bool {
				if fsn, ok := x.(*ast.ForStmt); ok && f.EnclosingLit(fsn) == nil {
					top := true
					for _, a := range f.Enclosing(fsn) {
						if _, ok := a.(*ast.ForStmt); ok {
							top = false
						}
					}
					if top {
						loops = append(loops, fsn)
					}
				}
				return true
			})
			okOrder := len(loops) >= 2 && prog.MentionsField(info, loops[0], "store.Node.count") && prog.MentionsField(info, loops[0], "store.Node.hash") &&
				prog.MentionsField(info, loops[1], "store.HTree.leafs") && !prog.MentionsField(info, loops[0], "store.HTree.leafs")
			c.check(okOrder, R, f.Key+": node summaries first, then leaves", f.Pos(), "two loops in that order", "the tree dump layout (all leaf-node summaries, then all raw leaves) is not what this side implements")
		}
	}
}

func c08r4(c *Ctx) {
	const R = "C08.R4"
	if f := c.fn(R, "store.HTree.listDir"); f != nil {
		info := f.Info()
		up := f.CallsTo("store.HTree.updateNodes")
		L := c.P.Locks().Entry(f)
		_, held := L[lkTree]
		c.check(held, R, f.Key+": runs under HTree.Mutex", f.Pos(), "held on entry at every call site", "listDir can run without the tree lock")
		if len(up) == 0 {
			c.viol(R, f.Key+": refresh before reading summaries", f.Pos(), "listDir no longer refreshes (updateNodes) the node it lists: stale hash/count are reported")
		} else {
			// every read of node.count / child nodes after the refresh
			bad := ""
			ast.Inspect(f.Decl.Body, func(x ast.Node) bool {
				if se, ok := x.(*ast.SelectorExpr); ok {
					if k, _ := prog.FieldOf(info, se); k == "store.Node.count" || k == "store.Node.hash" {
						c.Paths++
						if !f.CFG().Dominates(up[0].Expr, se) {
							bad = c.pos(se)
						}
					}
				}
				return true
			})
			c.check(bad == "", R, f.Key+": updateNodes ≺ every read of node.count/hash", up[0].Pos(), "dominated", "a node summary is read before the refresh ("+bad+")")
		}
	}
	if f := c.fn(R, "store.HTree.ListDir"); f != nil {
		for _, call := range f.CallsTo("store.HTree.listDir") {
			h, ls := holds(c, f, call.Expr, lkTree)
			c.check(h, R, f.Key+": listDir under HTree.Mutex", call.Pos(), "lockset "+ls, "the listing is computed without the tree lock (lockset "+ls+")")
		}
	}
	if f := c.fn(R, "store.HStore.ListUpper"); f != nil {
		info := f.Info()
		up := f.CallsTo("store.HStore.updateNodesUpper")
		if len(up) == 0 {
			c.viol(R, f.Key+": refresh before listing", f.Pos(), "ListUpper no longer refreshes the upper tree")
		} else {
			h, ls := holds(c, f, up[0].Expr, lkUpper)
			c.check(h, R, f.Key+": refresh under htreeLock", up[0].Pos(), "lockset "+ls, "the upper tree is refreshed without HStore.htreeLock")
			bad := ""
			ast.Inspect(f.Decl.Body, func(x ast.Node) bool {
				if se, ok := x.(*ast.SelectorExpr); ok {
					if k, _ := prog.FieldOf(info, se); k == "store.Node.count" || k == "store.Node.hash" {
						if !f.CFG().Dominates(up[0].Expr, se) {
							bad = c.pos(se)
						}
					}
				}
				return true
			})
			c.check(bad == "", R, f.Key+": refresh ≺ reads", up[0].Pos(), "dominated", "upper-level summaries are read before the refresh ("+bad+")")
		}
	}
	if f := c.fn(R, "store.HStore.updateNodesUpper"); f != nil {
		info := f.Info()
		upd := f.CallsTo("store.HTree.Update")
		okGate := false
		for _, u := range upd {
			for _, a := range f.GuardsAt(u.Expr) {
				if prog.AtomCmp(a, token.EQL, prog.IsField(info, "store.BucketStat.State"), prog.IsConstNamed(info, "store.BUCKET_STAT_READY")) {
					okGate = true
				}
			}
		}
		c.check(len(upd) > 0 && okGate, R, f.Key+": bucket roots through HTree.Update, READY buckets only", f.Pos(), "locked refresh, gated", "the upper tree no longer takes bucket roots through the locked refresh HTree.Update of READY buckets")
	}
	if f := c.fn(R, "store.HStore.updateNodesUpper"); f != nil {
		info := f.Info()
		n, bad := 0, ""
		ast.Inspect(f.Decl.Body, func(x ast.Node) bool {
			as, ok := x.(*ast.AssignStmt)
			if !ok || len(as.Lhs) != 1 || as.Tok != token.ASSIGN {
				return true
			}
			k, _ := prog.FieldOf(info, as.Lhs[0])
			if k != "store.Node.hash" && k != "store.Node.count" {
				return true
			}
			if v, isC := prog.ConstInt(info, as.Rhs[0]); !isC || v != 0 {
				return true
			}
			n++
			for _, a := range f.Enclosing(as) {
				switch a.(type) {
				case *ast.IfStmt, *ast.ForStmt, *ast.SwitchStmt:
					bad = c.pos(as)
				}
			}
			return true
		})
		c.check(n >= 2 && bad == "", R, f.Key+": node summary reset unconditionally before recomputation", f.Pos(), "hash = 0; count = 0 at the top",
			"the upper-tree node is not reset on every refresh (reset at "+bad+" is conditional): the leaf of a bucket that is not READY keeps the hash/count cached by an earlier listing, so unloaded buckets still contribute to upper-level listings")
	}
	if f := c.fn(R, "store.HTree.Update"); f != nil {
		for _, call := range f.CallsTo("store.HTree.updateNodes") {
			h, ls := holds(c, f, call.Expr, lkTree)
			c.check(h, R, f.Key+": updateNodes under HTree.Mutex", call.Pos(), "lockset "+ls, "HTree.Update refreshes without the lock")
		}
	}
}

func c08r5(c *Ctx) {
	const R = "C08.R5"
	allowed := map[string]bool{"store.HTree.setToLeaf": true, "store.HTree.remvoeFromLeaf": true, "store.HTree.updateNodes": true, "store.HTree.load": true, "store.HStore.updateNodesUpper": true}
	var writers []string
	for _, f := range c.P.SortedFuncs() {
		info := f.Info()
		w := false
		ast.Inspect(f.Decl.Body, func(x ast.Node) bool {
			switch s := x.(type) {
			case *ast.AssignStmt:
				for _, l := range s.Lhs {
					if k, _ := prog.FieldOf(info, l); k == "store.Node.count" || k == "store.Node.hash" {
						w = true
					}
				}
			case *ast.IncDecStmt:
				if k, _ := prog.FieldOf(info, s.X); k == "store.Node.count" || k == "store.Node.hash" {
					w = true
				}
			}
			return true
		})
		if w {
			writers = append(writers, f.Key)
			c.Funcs[f.Key] = true
			c.check(allowed[f.Key], R, f.Key+": writes Node.count/hash", f.Pos(), "one of the five maintenance functions", f.Key+" writes node summaries but is not one of the maintenance functions (setToLeaf, remvoeFromLeaf, updateNodes, load, updateNodesUpper)")
		}
	}
	sort.Strings(writers)
	if len(writers) < 4 {
		c.undec(R, "store.Node", "fewer than 4 writers of node summaries found: "+strings.Join(writers, ","))
	}
}

func fieldWriters(c *Ctx, keys ...string) map[string][]string {
	out := map[string][]string{}
	for _, f := range c.P.SortedFuncs() {
		info := f.Info()
		ast.Inspect(f.Decl.Body, func(x ast.Node) bool {
			var lhs []ast.Expr
			switch s := x.(type) {
			case *ast.AssignStmt:
				lhs = s.Lhs
			case *ast.IncDecStmt:
				lhs = []ast.Expr{s.X}
			}
			for _, l := range lhs {
				k, _ := prog.FieldOf(info, l)
				for _, want := range keys {
					if k == want {
						out[want] = append(out[want], f.Key)
					}
				}
			}
			return true
		})
	}
	for k := range out {
		sort.Strings(out[k])
		out[k] = dedup(out[k])
	}
	return out
}

func c08r6(c *Ctx) {
	const R = "C08.R6"
	ws := fieldWriters(c, "store.HtreeDerivedConfig.TreeKeyHashLen", "store.HtreeDerivedConfig.TreeKeyHashMask", "store.HtreeDerivedConfig.TreeDepth")
	for _, k := range []string{"store.HtreeDerivedConfig.TreeKeyHashLen", "store.HtreeDerivedConfig.TreeKeyHashMask", "store.HtreeDerivedConfig.TreeDepth"} {
		w := ws[k]
		c.check(len(w) == 1 && w[0] == "store.HStoreConfig.InitTree", R, "who-may-write "+short(k), "-", "only InitTree", "derived tree parameter "+k+" is written by "+strings.Join(w, ",")+" (expected only HStoreConfig.InitTree): leaf item width or bucket depth can change under a loaded tree")
	}
	if f := c.fn(R, "store.SliceHeader.Iter"); f != nil {
		info := f.Info()
		usesMask := prog.MentionsField(info, f.Decl.Body, "store.HtreeDerivedConfig.TreeKeyHashMask")
		usesLen := prog.MentionsField(info, f.Decl.Body, "store.HtreeDerivedConfig.TreeKeyHashLen")
		usesPath := len(f.CallsTo("store.getNodeKhash")) > 0
		c.check(usesMask && usesLen && usesPath, R, f.Key+": full hash = stored low bytes | node path", f.Pos(), "mask, item width and node path used", "leaf iteration no longer reconstructs the 64-bit hash from the stored low bytes (mask) and the node path")
	}
	if f := c.fn(R, "store.HStoreConfig.InitTree"); f != nil {
		info := f.Info()
		// mask = all-ones >> (64 - 8*len)
		okMask := false
		ast.Inspect(f.Decl.Body, func(x ast.Node) bool {
			if as, ok := x.(*ast.AssignStmt); ok && len(as.Lhs) == 1 && prog.IsField(info, "store.HtreeDerivedConfig.TreeKeyHashMask")(as.Lhs[0]) {
				okMask = true
			}
			return true
		})
		c.check(okMask, R, f.Key+": derives the mask", f.Pos(), "assigned", "InitTree does not derive TreeKeyHashMask")
	}
}

func c08r7(c *Ctx) {
	const R = "C08.R7"
	pk := c.P.ByName["store"]
	if pk == nil {
		c.undec(R, "store", "package not loaded")
		return
	}
	// KHASH_LENS literal
	var lens []int64
	for _, file := range pk.Syntax {
		ast.Inspect(file, func(x ast.Node) bool {
			vs, ok := x.(*ast.ValueSpec)
			if !ok {
				return true
			}
			for i, nm := range vs.Names {
				if nm.Name == "KHASH_LENS" && i < len(vs.Values) {
					if cl, ok := vs.Values[i].(*ast.CompositeLit); ok {
						for _, e := range cl.Elts {
							if v, isC := prog.ConstInt(pk.TypesInfo, e); isC {
								lens = append(lens, v)
							}
						}
					}
				}
			}
			return true
		})
	}
	if len(lens) == 0 {
		c.undec(R, "store.KHASH_LENS", "table not found")
		return
	}
	for i, l := range lens {
		c.check(8*l+4*int64(i) >= 64 && l <= 8, R, "KHASH_LENS["+itoa(i)+"] covers the bits below the leaf path", "-", itoa(int(l))+" bytes + "+itoa(i)+" path digits",
			"with "+itoa(i)+" hex digits above the leaf, "+itoa(int(l))+" stored bytes leave "+itoa(int(64-8*l-4*int64(i)))+" bits of the key hash unrepresented: distinct keys alias in a leaf and listings report reconstructed hashes that differ from the real ones")
	}
	maxDepth, _ := constVal(c, "store", "MAX_DEPTH")
	c.check(int(maxDepth) == len(lens), R, "MAX_DEPTH == len(KHASH_LENS)", "-", itoa(int(maxDepth)), "MAX_DEPTH ("+itoa(int(maxDepth))+") differs from the size of the width table ("+itoa(len(lens))+")")
	if f := c.fn(R, "store.HStoreConfig.InitTree"); f != nil {
		info := f.Info()
		okIdx := false
		ast.Inspect(f.Decl.Body, func(x ast.Node) bool {
			if ix, ok := x.(*ast.IndexExpr); ok {
				if o := prog.RootObj(info, ix.X); o != nil && o.Name() == "KHASH_LENS" {
					// TreeDepth + TreeHeight - 1
					s := types.ExprString(ix.Index)
					if be, ok := prog.Unparen(ix.Index).(*ast.BinaryExpr); ok && be.Op == token.SUB {
						if v, isC := prog.ConstInt(info, be.Y); isC && v == 1 && prog.MentionsField(info, be.X, "store.HtreeDerivedConfig.TreeDepth") && prog.MentionsField(info, be.X, "store.HTreeConfig.TreeHeight") {
							okIdx = true
						}
					}
					_ = s
				}
			}
			return true
		})
		c.check(okIdx, R, f.Key+": width = KHASH_LENS[TreeDepth+TreeHeight-1]", f.Pos(), "indexed by the number of digits above the leaf", "the leaf key-hash width is not taken from KHASH_LENS at index TreeDepth+TreeHeight-1")
	}
	if f := c.fn(R, "store.newHTree"); f != nil {
		info := f.Info()
		okG := false
		for _, call := range f.CallsTo("builtin.panic") {
			for _, a := range f.GuardsAt(call.Expr) {
				if prog.AtomCmp(a, token.GTR, func(e ast.Expr) bool { return prog.Mentions(info, e, f.Param(0)) && prog.Mentions(info, e, f.Param(2)) }, prog.IsConstNamed(info, "store.MAX_DEPTH")) {
					okG = true
				}
			}
		}
		c.check(okG, R, f.Key+": rejects depth+height > MAX_DEPTH", f.Pos(), "panic guard", "newHTree accepts trees deeper than the width table")
	}
}

// c08r8: every function that walks a leaf uses the same entry geometry: the
// item starts TreeKeyHashLen bytes into the entry and entries are
// TreeKeyHashLen + TREE_ITEM_HEAD_SIZE bytes apart.
func c08r8(c *Ctx) {
	const R = "C08.R8"
	isKLen := func(f *prog.Func, e ast.Expr, at ast.Node) bool {
		info := f.Info()
		if prog.IsField(info, "store.HtreeDerivedConfig.TreeKeyHashLen")(prog.Unparen(e)) {
			return true
		}
		for _, s := range f.SourcesAt(e, at) {
			if s.Kind == "global" && s.Field == "TreeKeyHashLen" || (s.Expr != nil && prog.IsField(info, "store.HtreeDerivedConfig.TreeKeyHashLen")(prog.Unparen(s.Expr))) {
				continue
			}
			return false
		}
		return true
	}
	for _, k := range []string{"store.SliceHeader.Set", "store.SliceHeader.Remove", "store.SliceHeader.Get", "store.SliceHeader.Iter"} {
		f := c.fn(R, k)
		if f == nil {
			continue
		}
		info := f.Info()
		n := 0
		for _, call := range f.CallsTo("store.bytesToItem", "store.itemToBytes") {
			n++
			// first argument: leaf[<entry start> + klen:]  or  dst[klen:]
			se, ok := prog.Unparen(call.Expr.Args[0]).(*ast.SliceExpr)
			okOff := false
			if ok && se.Low != nil {
				low := prog.Unparen(se.Low)
				if be, isB := low.(*ast.BinaryExpr); isB && be.Op == token.ADD {
					okOff = isKLen(f, be.Y, call.Expr) || isKLen(f, be.X, call.Expr)
				} else {
					okOff = isKLen(f, low, call.Expr)
				}
			}
			c.check(okOff, R, f.Key+": item at entry offset TreeKeyHashLen ("+short(call.Key)+")", call.Pos(), "slice starts at +TreeKeyHashLen",
				"the tree item is read/written at an entry offset other than the configured key-hash width: it overlaps the stored key hash, so positions/versions read back differ from what was stored")
		}
		if n == 0 {
			c.undec(R, f.Key, "no item codec call found")
		}
		_ = info
	}
	// stride = klen + TREE_ITEM_HEAD_SIZE wherever a stride is computed
	for _, k := range []string{"store.SliceHeader.Set", "store.SliceHeader.Remove", "store.SliceHeader.Iter", "store.findInBytes"} {
		f := c.fn(R, k)
		if f == nil {
			continue
		}
		info := f.Info()
		found := false
		ast.Inspect(f.Decl.Body, func(x ast.Node) bool {
			if be, ok := x.(*ast.BinaryExpr); ok && be.Op == token.ADD && prog.ConstObjName(info, be.Y) == "store.TREE_ITEM_HEAD_SIZE" {
				// X is klen, or (len(leaf) + klen)
				xx := prog.Unparen(be.X)
				if inner, isB := xx.(*ast.BinaryExpr); isB && inner.Op == token.ADD {
					xx = prog.Unparen(inner.Y)
				}
				if isKLen(f, xx, be) {
					found = true
				}
			}
			return true
		})
		c.check(found, R, f.Key+": entry stride = TreeKeyHashLen + TREE_ITEM_HEAD_SIZE", f.Pos(), "stride recognised", "the leaf entry stride is not TreeKeyHashLen + TREE_ITEM_HEAD_SIZE in "+f.Key+": entries are located at the wrong offsets")
	}
	if f := c.fn(R, "store.SliceHeader.Remove"); f != nil {
		info := f.Info()
		// removal closes the gap by exactly one entry and shrinks the length by the same amount
		var itemLen types.Object
		okCopy, okLen := false, false
		ast.Inspect(f.Decl.Body, func(x ast.Node) bool {
			switch s := x.(type) {
			case *ast.CallExpr:
				if prog.CalleeKey(info, s) == "builtin.copy" && len(s.Args) == 2 {
					if src, ok := prog.Unparen(s.Args[1]).(*ast.SliceExpr); ok && src.Low != nil {
						if be, isB := prog.Unparen(src.Low).(*ast.BinaryExpr); isB && be.Op == token.ADD {
							itemLen = prog.ObjOf(info, be.Y)
							okCopy = itemLen != nil
						}
					}
				}
			case *ast.AssignStmt:
				if s.Tok == token.SUB_ASSIGN && len(s.Lhs) == 1 && prog.IsField(info, "store.SliceHeader.Len")(s.Lhs[0]) && itemLen != nil && prog.ObjOf(info, s.Rhs[0]) == itemLen {
					okLen = true
				}
			}
			return true
		})
		c.check(okCopy && okLen, R, f.Key+": gap closed and length reduced by one entry", f.Pos(), "copy(leaf[idx:], leaf[idx+itemLen:]); Len -= itemLen", "removing an entry does not shift the rest by one entry and shrink the leaf by one entry")
		// match rule: wildcard chunk (-1) or same offset
		okMatch := false
		ast.Inspect(f.Decl.Body, func(x ast.Node) bool {
			if is, ok := x.(*ast.IfStmt); ok {
				hasWild, hasOff := false, false
				ast.Inspect(is.Cond, func(y ast.Node) bool {
					if be, isB := y.(*ast.BinaryExpr); isB && be.Op == token.EQL {
						if v, isC := prog.ConstInt(info, be.Y); isC && v == -1 && prog.MentionsField(info, be.X, "store.Position.ChunkID") {
							hasWild = true
						}
						if prog.MentionsField(info, be.X, "store.Position.Offset") && prog.MentionsField(info, be.Y, "store.Position.Offset") {
							hasOff = true
						}
					}
					return true
				})
				if hasWild && hasOff {
					okMatch = true
				}
			}
			return true
		})
		c.check(okMatch, R, f.Key+": removes on wildcard chunk (-1) or equal offset", f.Pos(), "ChunkID == -1 || Offset == Offset", "the remove condition changed: tombstone replay (ChunkID -1) no longer removes the slot, or a remove with a stale position removes a newer entry")
	}
}
