package rules

import (
	"go/ast"
	"go/token"
	"go/types"

	"gbcheck/internal/prog"
)

func init() {
	register(&Property{
		ID:      "C18",
		Clause:  "a scanned record is copied only if the keep flag is set, and the flag starts false for every record; the flag is set in exactly the four frozen situations of the keep table; a drained source (≠ destination) is removed unconditionally and Clear really removes the file; a rewritten file is cut at the write head on every exit (deferred) and before each destination switch; an earlier file is opened for append with its write head at its size",
		NotDec:  "'each exactly once', 'a second pass releases nothing', byte identity of the appended-to prefix, which colliding records the guess keeps",
		Engines: "E2 guards/dominance + frozen keep table",
		Rules: []Rule{
			{"C18.R1", "q", "copy gated by a per-record keep flag", c18r1},
			{"C18.R2", "q", "keep table", c18r2},
			{"C18.R3", "q", "drained source removed", c18r3},
			{"C18.R3b", "q", "every file of the range is visited", c18r3b},
			{"C18.R4", "q", "truncate on all exits and before destination switch", c18r4},
			{"C18.R5", "q", "earlier file appended to, never overwritten", c18r5},
			{"C18.R6", "q", "hint files of a chunk removed by glob", c18r6},
			{"C02.R8", "q", "shared: rebuild indexes every scanned record (tombstones)", c02r8},
			{"C03.R4", "q", "shared: tree dump removed before any GC pass", c03r4},
		},
	})
}

func c18r1(c *Ctx) {
	const R = "C18.R1"
	m := buildGCModel(c, R)
	if m == nil {
		return
	}
	f := m.f
	if !c.check(m.keep != nil, R, f.Key+": copy gated by keep flag", m.appendGC.Pos(), "AppendRecordGC guarded by a boolean local", "AppendRecordGC is not guarded by a keep flag: every scanned record is copied and nothing is reclaimed") {
		return
	}
	// the flag is declared (zero = false) inside the record loop
	info := f.Info()
	var decl ast.Node
	ast.Inspect(f.Decl.Body, func(n ast.Node) bool {
		if id, ok := n.(*ast.Ident); ok && info.Defs[id] == m.keep {
			decl = id
		}
		return true
	})
	fresh := false
	if decl != nil {
		// innermost loop containing the Next call
		var loop ast.Node
		for _, a := range f.Enclosing(m.next.Expr) {
			if _, ok := a.(*ast.ForStmt); ok {
				loop = a
				break
			}
		}
		if loop != nil && loop.Pos() <= decl.Pos() && decl.End() <= loop.End() {
			// declared with zero value or explicit false
			fresh = true
			if vs, ok := f.Parent(decl).(*ast.ValueSpec); ok && len(vs.Values) > 0 {
				for i, nm := range vs.Names {
					if info.Defs[nm] == m.keep && i < len(vs.Values) {
						if b, ok := prog.ConstBool(info, vs.Values[i]); !ok || b {
							fresh = false
						}
					}
				}
			}
		}
	}
	c.check(fresh, R, f.Key+": keep flag fresh per record", c.pos(m.appendGC.Expr), "declared false inside the record loop", "the keep flag is not reset for every record: once set, all following records of the file are kept")
}

func c18r2(c *Ctx) {
	const R = "C18.R2"
	m := buildGCModel(c, R)
	if m == nil {
		return
	}
	f := m.f
	if m.keep == nil {
		c.undec(R, f.Key, "keep flag not recognised")
		return
	}
	seen := map[string]bool{}
	for _, s := range m.stores {
		if !s.value {
			c.ok(R, f.Key+": keep = false", c.pos(s.stmt), "clearing the flag is always safe for this rule")
			continue
		}
		sig := s.signature()
		if why, ok := keepTable[sig]; ok && len(s.unk) == 0 {
			seen[sig] = true
			c.ok(R, f.Key+": keep = true under ["+sig+"]", c.pos(s.stmt), why)
			continue
		}
		if _, ok := keepTable[sig]; ok && len(s.unk) > 0 {
			c.undec(R, f.Key+": keep = true under ["+sig+"] + unrecognised conjunct", "a keep store carries a condition the rule does not recognise at "+s.unk[0])
			continue
		}
		c.viol(R, f.Key+": keep = true under ["+sig+"]", c.pos(s.stmt), "the keep flag is set in a situation that is not in the frozen keep table (a conjunct is missing, changed, or this is a new store): a record that is not the current one of its key is copied and the tree is repointed to it, or a superseded version survives the pass")
	}
	for sig, why := range keepTable {
		if !seen[sig] {
			c.viol(R, f.Key+": keep table entry ["+sig+"] present", f.Pos(), "no store implements keep-table entry "+why+": records in that situation are dropped by GC")
		}
	}
}

func errReturn(f *prog.Func) func(ast.Node) bool {
	info := f.Info()
	return func(n ast.Node) bool {
		rs, ok := n.(*ast.ReturnStmt)
		if !ok {
			return false
		}
		for _, a := range f.GuardsAt(rs) {
			if a.Op == token.NEQ && a.Y != nil && (prog.IsNil(info, a.Y) || prog.IsNil(info, a.X)) {
				e := a.X
				if prog.IsNil(info, a.X) {
					e = a.Y
				}
				if t := info.TypeOf(e); t != nil && types.Identical(t, types.Universe.Lookup("error").Type()) {
					return true
				}
			}
			if a.Op == token.ILLEGAL && !a.Neg && prog.MentionsField(info, a.X, "store.GCState.CancelFlag") {
				return true
			}
		}
		return false
	}
}

func c18r3(c *Ctx) {
	const R = "C18.R3"
	f := c.fn(R, "store.GCMgr.gc")
	if f == nil {
		return
	}
	info := f.Info()
	clears := f.CallsTo("store.dataChunk.Clear")
	nexts := f.CallsTo("store.DataStreamReader.Next")
	if len(clears) == 0 {
		c.viol(R, f.Key+": drained source removed", f.Pos(), "gc never removes a drained source file: nothing is reclaimed")
		return
	}
	if len(nexts) == 0 {
		c.undec(R, f.Key, "scan loop not recognised")
		return
	}
	cl := clears[0]
	extra := ""
	for _, a := range f.GuardsAt(cl.Expr) {
		isSrcDst := prog.AtomCmp(a, token.NEQ, prog.IsField(info, "store.GCState.Src"), prog.IsField(info, "store.GCState.Dst")) ||
			prog.AtomCmp(a, token.GTR, prog.IsField(info, "store.GCState.Src"), prog.IsField(info, "store.GCState.Dst"))
		if isSrcDst {
			continue
		}
		// facts inherited from the source-loop header (CancelFlag false, size > 0, loop bound) are fine
		if a.Src != nil && a.Src.Pos() < nexts[0].Expr.Pos() {
			continue
		}
		if a.X != nil {
			extra = c.pos(a.X)
		}
	}
	c.check(extra == "", R, f.Key+": Clear conditional only on Src != Dst", cl.Pos(), "no further condition", "the removal of a drained source depends on an additional condition ("+extra+"): drained files can stay on disk")
	c.Paths++
	esc := f.CFG().EscapesWithout(nexts[0].Expr, func(n ast.Node) bool {
		// passing the `Src != Dst` test counts
		if e, ok := n.(ast.Expr); ok {
			for _, a := range prog.Decompose(e, true, nil) {
				if prog.AtomCmp(a, token.NEQ, prog.IsField(info, "store.GCState.Src"), prog.IsField(info, "store.GCState.Dst")) {
					return true
				}
			}
		}
		return false
	}, errReturn(f))
	c.check(!esc.Found, R, f.Key+": removal reached after every completed scan", cl.Pos(), "every non-error path from the scan passes the Src != Dst test", "a path leaves the scan of a source without reaching its removal", c.trail(esc.Trail)...)
	if cf := c.fn(R, "store.dataChunk.Clear"); cf != nil {
		okRm := false
		for _, call := range cf.CallsTo("utils.Remove", "os.Remove") {
			if prog.MentionsField(cf.Info(), call.Expr, "store.dataChunk.path") {
				okRm = true
			}
		}
		c.check(okRm, R, cf.Key+": removes dc.path", cf.Pos(), "utils.Remove(dc.path)", "dataChunk.Clear no longer removes the data file")
	}
}

func c18r4(c *Ctx) {
	const R = "C18.R4"
	f := c.fn(R, "store.GCMgr.gc")
	if f == nil {
		return
	}
	info := f.Info()
	begins := f.CallsTo("store.dataChunk.beginGCWriting")
	nexts := f.CallsTo("store.DataStreamReader.Next")
	if len(begins) == 0 || len(nexts) == 0 {
		c.undec(R, f.Key, "beginGCWriting / scan loop not recognised")
		return
	}
	var dfr *ast.DeferStmt
	ast.Inspect(f.Decl.Body, func(n ast.Node) bool {
		if d, ok := n.(*ast.DeferStmt); ok && len(f.CallsIn(d, "store.dataChunk.endGCWriting")) > 0 && f.EnclosingLit(d) == nil {
			dfr = d
		}
		return true
	})
	if dfr != nil {
		// the deferred cleanup must act on the destination current at exit: a plain
		// `defer x.endGCWriting()` binds x when the defer statement runs
		if lit, isLit := dfr.Call.Fun.(*ast.FuncLit); isLit && len(dfr.Call.Args) > 0 {
			// arguments of a deferred literal are evaluated when the defer is registered
			for _, e := range f.CallsIn(lit, "store.dataChunk.endGCWriting") {
				if se, ok := prog.Unparen(e.Expr.Fun).(*ast.SelectorExpr); ok {
					ro := prog.RootObj(info, se.X)
					isParam := false
					for _, fl := range lit.Type.Params.List {
						for _, nm := range fl.Names {
							if info.Defs[nm] == ro {
								isParam = true
							}
						}
					}
					c.check(!isParam, R, f.Key+": deferred endGCWriting acts on the final destination", c.pos(dfr), "receiver captured, evaluated at exit",
						"the deferred cleanup receives the destination chunk as an argument, which is evaluated when the defer is registered: after the destination rotates, the final destination is never closed nor truncated to its write head")
				}
			}
		}
		if _, isLit := dfr.Call.Fun.(*ast.FuncLit); !isLit {
			if se, ok := prog.Unparen(dfr.Call.Fun).(*ast.SelectorExpr); ok {
				nd := len(f.DefsOfPath(se.X))
				c.check(nd <= 1, R, f.Key+": deferred endGCWriting acts on the final destination", c.pos(dfr), "receiver evaluated at exit",
					"`defer "+types.ExprString(se.X)+".endGCWriting()` evaluates its receiver when the defer is registered, but the destination variable is reassigned when the destination rotates: the final destination is never closed nor truncated to its write head (and keeps rewriting=true)")
			}
		}
	}
	if !c.check(dfr != nil, R, f.Key+": deferred endGCWriting", f.Pos(), "registered", "gc does not defer endGCWriting: an early exit (error, cancel) leaves the rewritten file with its stale tail and an open writer") {
		return
	}
	c.Paths += 2
	c.check(f.CFG().Dominates(begins[0].Expr, dfr), R, f.Key+": beginGCWriting ≺ defer endGCWriting", c.pos(dfr), "dominated", "the cleanup is registered before the destination was opened")
	skip := f.CFG().ReachesWithout(begins[0].Expr, nexts[0].Expr, prog.NodeIs(dfr))
	c.check(!skip, R, f.Key+": defer registered before the first scan", c.pos(dfr), "every path from beginGCWriting to the scan passes the defer", "a path reaches the record loop without the deferred endGCWriting registered (e.g. registered only on the cancel path)")
	// destination switch
	n := 0
	ast.Inspect(f.Decl.Body, func(x ast.Node) bool {
		var st ast.Node
		switch s := x.(type) {
		case *ast.IncDecStmt:
			if k, _ := prog.FieldOf(info, s.X); k == "store.GCState.Dst" {
				st = s
			}
		case *ast.AssignStmt:
			for _, l := range s.Lhs {
				if k, _ := prog.FieldOf(info, l); k == "store.GCState.Dst" && s.Pos() > nexts[0].Expr.Pos() {
					st = s
				}
			}
		}
		if st == nil {
			return true
		}
		n++
		okE := false
		for _, e := range f.CallsTo("store.dataChunk.endGCWriting") {
			if f.EnclosingLit(e.Expr) == nil && e.Expr.Pos() > nexts[0].Expr.Pos() && f.CFG().Dominates(e.Expr, st) {
				okE = true
			}
		}
		c.check(okE, R, f.Key+": endGCWriting before destination switch", c.pos(st), "dominated by an in-loop endGCWriting", "the destination is switched without closing/truncating the previous destination")
		return true
	})
	if n == 0 {
		c.undec(R, f.Key, "no in-loop destination switch recognised")
	}
	if ef := c.fn(R, "store.dataChunk.endGCWriting"); ef != nil {
		einfo := ef.Info()
		tr := ef.CallsTo("store.dataChunk.Truncate", "os.Truncate")
		if len(tr) == 0 {
			c.viol(R, ef.Key+": truncates the stale tail", ef.Pos(), "endGCWriting never truncates: the stale tail of a rewritten file survives GC")
			return
		}
		t := tr[0]
		isWH := prog.IsField(einfo, "store.dataChunk.writingHead")
		isSize := prog.IsField(einfo, "store.dataChunk.size")
		hasRew, hasLess := false, false
		for _, a := range ef.GuardsAt(t.Expr) {
			if a.Op == token.ILLEGAL && !a.Neg && prog.IsField(einfo, "store.dataChunk.rewriting")(prog.Unparen(a.X)) {
				hasRew = true
			}
			if prog.AtomCmp(a, token.LSS, isWH, isSize) || prog.AtomCmp(a, token.NEQ, isWH, isSize) {
				hasLess = true
			}
		}
		argOK := len(t.Expr.Args) > 0 && prog.MentionsField(einfo, t.Expr.Args[len(t.Expr.Args)-1], "store.dataChunk.writingHead")
		// the rewriting flag is cleared on every path
		c.Paths++
		esc := ef.CFG().EscapesWithout(nil, func(n ast.Node) bool {
			as, ok := n.(*ast.AssignStmt)
			if !ok || len(as.Lhs) != 1 || !prog.IsField(einfo, "store.dataChunk.rewriting")(as.Lhs[0]) {
				return false
			}
			b, isC := prog.ConstBool(einfo, as.Rhs[0])
			return isC && !b
		}, nil)
		c.check(!esc.Found, R, ef.Key+": rewriting cleared on every path", ef.Pos(), "dc.rewriting = false reached on all exits",
			"a path through endGCWriting leaves dc.rewriting set (e.g. when nothing had to be truncated): a later pass that appends to this chunk opens it with append = !rewriting = false and overwrites the head of the file while its write head points at the end", c.trail(esc.Trail)...)
		c.check(hasRew && hasLess && argOK, R, ef.Key+": Truncate(writingHead) when rewriting ∧ writingHead < size", t.Pos(), "guard and argument recognised", "the truncation of a rewritten file is no longer `Truncate(dc.writingHead)` under `rewriting && writingHead < size`")
	}
}

func c18r5(c *Ctx) {
	const R = "C18.R5"
	f := c.fn(R, "store.dataChunk.beginGCWriting")
	if f == nil {
		return
	}
	info := f.Info()
	gw := f.CallsTo("store.GetStreamWriter")
	if len(gw) == 0 {
		c.undec(R, f.Key, "GetStreamWriter call not found")
		return
	}
	arg := prog.Unparen(gw[0].Expr.Args[1])
	okArg := false
	if u, ok := arg.(*ast.UnaryExpr); ok && u.Op == token.NOT && prog.IsField(info, "store.dataChunk.rewriting")(prog.Unparen(u.X)) {
		okArg = true
	}
	c.check(okArg, R, f.Key+": append flag = !rewriting", gw[0].Pos(), "GetStreamWriter(path, !dc.rewriting)", "the destination is not opened for append exactly when it is not being rewritten: an earlier file's existing records would be overwritten (or a rewritten file appended to)")
	// non-rewritten destination: writingHead = size; rewritten: rewriting = true, writingHead = 0
	var sawAppendHead, sawRewrite, sawZero bool
	ast.Inspect(f.Decl.Body, func(x ast.Node) bool {
		as, ok := x.(*ast.AssignStmt)
		if !ok || len(as.Lhs) != 1 || len(as.Rhs) != 1 {
			return true
		}
		k, _ := prog.FieldOf(info, as.Lhs[0])
		same := false
		for _, a := range f.GuardsAt(as) {
			if prog.AtomCmp(a, token.EQL, prog.IsField(info, "store.dataChunk.chunkid"), prog.IsObj(info, f.Param(0))) {
				same = true
			}
		}
		switch k {
		case "store.dataChunk.writingHead":
			if prog.IsField(info, "store.dataChunk.size")(as.Rhs[0]) && !same {
				sawAppendHead = true
			}
			if v, ok := prog.ConstInt(info, as.Rhs[0]); ok && v == 0 && same {
				sawZero = true
			}
		case "store.dataChunk.rewriting":
			if b, ok := prog.ConstBool(info, as.Rhs[0]); ok && b && same {
				sawRewrite = true
			}
		}
		return true
	})
	c.check(sawAppendHead, R, f.Key+": appended-to file starts at its size", f.Pos(), "writingHead = size when dst != src", "when the destination is an earlier file its write head is not set to its size")
	c.check(sawRewrite && sawZero, R, f.Key+": in-place rewrite starts at 0 with rewriting set", f.Pos(), "rewriting = true; writingHead = 0 when dst == src", "the in-place rewrite no longer sets rewriting=true and writingHead=0 under dst == src")
}

// c18r3b: the source loop visits every chunk of [Begin, End]: it is left early
// only on errors or a cancel, never by a break; an empty chunk is skipped with continue.
func c18r3b(c *Ctx) {
	const R = "C18.R3b"
	f := c.fn(R, "store.GCMgr.gc")
	if f == nil {
		return
	}
	info := f.Info()
	var loop *ast.ForStmt
	ast.Inspect(f.Decl.Body, func(x ast.Node) bool {
		if fs, ok := x.(*ast.ForStmt); ok && fs.Init != nil && loop == nil {
			if as, ok := fs.Init.(*ast.AssignStmt); ok && len(as.Lhs) == 1 && prog.IsField(info, "store.GCState.Src")(as.Lhs[0]) {
				loop = fs
			}
		}
		return true
	})
	if loop == nil {
		c.undec(R, f.Key, "source loop not recognised")
		return
	}
	bad := ""
	var walk func(n ast.Node, depth int)
	walk = func(n ast.Node, depth int) {
		ast.Inspect(n, func(x ast.Node) bool {
			switch s := x.(type) {
			case *ast.ForStmt:
				if s != loop {
					return false // breaks inside belong to the inner loop
				}
			case *ast.RangeStmt, *ast.SwitchStmt, *ast.SelectStmt, *ast.FuncLit:
				return false
			case *ast.BranchStmt:
				if s.Tok == token.BREAK || s.Tok == token.GOTO {
					bad = c.pos(s)
				}
			}
			return true
		})
	}
	walk(loop.Body, 0)
	c.check(bad == "", R, f.Key+": source loop never left by break", c.pos(loop), "only error/cancel returns leave it", "the source loop is left with a break ("+bad+"): the files of the range behind it (e.g. after a gap left by an earlier pass) are silently not collected while the pass reports success")
	// the empty-chunk test continues
	okSkip := false
	ast.Inspect(loop.Body, func(x ast.Node) bool {
		if is, ok := x.(*ast.IfStmt); ok && prog.MentionsField(info, is.Cond, "store.dataChunk.size") && prog.MentionsField(info, is.Cond, "store.GCState.Src") {
			if n := len(is.Body.List); n > 0 {
				if br, ok := is.Body.List[n-1].(*ast.BranchStmt); ok && br.Tok == token.CONTINUE {
					okSkip = true
				}
			}
		}
		return true
	})
	c.check(okSkip, R, f.Key+": an empty chunk inside the range is skipped, not the end", c.pos(loop), "if size <= 0 { continue }", "an empty chunk inside the range no longer leads to `continue`")
}
