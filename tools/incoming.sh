#!/bin/bash
# copy whatever the round-5 authors have delivered so far into seeded/.incoming (kept in git
# so that a sandbox restore cannot lose it again); confirmation happens later (seedcheck.sh)
cd "$(dirname "$0")/.."
for d in /tmp/r5/out/C*/[abc] /tmp/r6/out/C*/[ab]; do
  [ -f "$d/patch.diff" ] || continue
  p=$(basename $(dirname $d)); x=$(basename $d)
  R=R5; case $d in /tmp/r6/*) R=R6;; esac
  t=seeded/.incoming/$R-$p-$x; mkdir -p $t
  cp $d/patch.diff $d/*_test.go $d/README.md $t/ 2>/dev/null
done
for d in /tmp/b5/out/B*/[0-9]* /tmp/b6/out/B*/[0-9]*; do
  [ -f "$d/patch.diff" ] || continue
  b=$(basename $(dirname $d)); x=$(basename $d)
  R=R5; case $d in /tmp/b6/*) R=R6;; esac
  t=benign/.incoming/$R-$b-$x; mkdir -p $t
  cp $d/patch.diff $d/README.md $t/ 2>/dev/null
done
ls seeded/.incoming 2>/dev/null | wc -l; ls benign/.incoming 2>/dev/null | wc -l
